#!/usr/bin/env python3
"""Regenerates MANIFEST.json from the table below (single source of truth for claims)."""
import json, os
HERE = os.path.dirname(os.path.abspath(__file__))

CLAIMS = {
    # pid: (category, text, level_note, technique, design_ref)
    'C20': ('proof',
            'Every obligation of the reduction in DESIGN.md §4/C20 is discharged on each run: the library crate contains no user-written unsafe block/fn/impl (HIR scan with positive controls), and every panic source reachable from Fst::new, Fst::verify and the metadata accessors is enumerated over all MIR paths and proven unreachable by linear arithmetic under the dominating length/version guards.',
            'Trusts rustc\'s HIR/MIR, the std panic conditions of slice indexing / try_into / unwrap listed in stdmodel, that AsRef<[u8]> is pure, and a 64-bit target.',
            'HIR unsafe scan + path-sensitive panic-freedom proof over MIR (linear arithmetic, Fourier-Motzkin)', '§4 C20'),
}

CLAIMS.update({
    'C07': ('other',
            'Claimed as STRUCTURAL, not as proof: seed C07-m5 (a second forwarding call before accounting) was outside the premises as first written; the premises listed here are all decided on each run, but completeness of the list is not claimed. ' + 'Every premise of the reduction in DESIGN.md §4/C07 is decided on each run over all MIR paths of the counting io::Write adapter and all call sites of the library: byte counter and rolling checksum advance by exactly the bytes the inner writer accepted, short write() occurs nowhere else, every other emission is write_all, the raw sink is reachable only through the adapter/its getters/the trailing checksum write, bytes_written() returns that counter, and counter and checksum start at zero on the writer the builder keeps. Together with std\'s write_all contract this implies the claim for every sink behaviour.',
            'Trusts the io::Write::write_all contract (all bytes or Err; Interrupted retried; Ok(0) => WriteZero) and that the sink\'s write() reports a correct count. The conclusion "same bytes" is a deduction from the decided premises, not an observation.',
            'path-sensitive MIR dataflow on the io::Write adapter + who-may-call / who-may-touch rules over resolved call sites', '§4 C07'),
    'C11': ('other',
            'Claimed as STRUCTURAL, not as proof: seed C11-m6 (an unflushed BufWriter whose Drop discards the error) was a channel the reduction had not listed; the premises listed here are all decided on each run, but completeness of the list is not claimed. ' + 'Every Result<_, io::Error>/crate Result produced in code generic over the sink is followed (def-use over MIR) to `?`, the return place or an error-preserving combinator; none is dropped, swallowed, matched into success or unwrapped. Every success path of the finishing routine passes the pending-node compilation, both footer writes, the checksum write and a final propagated flush on the raw sink. Emission is write_all only, and io::Error converts to Error::Io.',
            'Trusts the `?` desugaring and the write_all contract. Scope is the code generic over W: io::Write; the Vec<u8>-only conveniences unwrap on an infallible sink and are excluded by construction (they are not generic).',
            'def-use error-flow analysis over MIR + must-pass-through on enumerated paths', '§4 C11'),
})

CLAIMS.update({
    'C06': ('proof',
            'The reduction in DESIGN.md §4/C06 is discharged on each run: the ordering check is executed abstractly over all 12 cases of (first key?, duplicate mode, key <,=,> last) and yields exactly the contract table with the right payloads; no builder state is written on a path to Err and the remembered key becomes the offered key on Ok; the builder-internal mutating routines are callable only from add/insert behind the check (whose result is propagated) and from the consuming finishers; all 14 front ends propagate the per-item error through `?`/return; set front ends reach add (no duplicate check) and map front ends insert; a repeated set key writes nothing and the empty-key path is idempotent (its stores do not depend on previous builder state). The claim for all call histories follows by induction.',
            'Trusts the lexicographic semantics of PartialEq/PartialOrd on byte slices as modelled by the ordering domain. "The finished FST contains exactly the accepted keys" additionally needs the value-level part of C01, which is not decided.',
            'abstract execution of MIR over a finite ordering domain + effect/who-may-call rules + def-use error flow', '§4 C06'),
    'C10': ('other',
            'Decides the structural clauses: the constructor is executed abstractly under every class of (version, length, root address) with linear arithmetic and every feasible path must end as the contract says (Version / Format / opens; the 32- and 36-byte smallest files open); metadata words are read at the per-version offsets; every reader-side use of the index threshold is guarded by version >= 2; verify() answers ChecksumMissing iff no checksum is stored; the constructor is the only place the FST type is built.',
            'Does not decide that every well-formed version-1/2 file answers every query according to its content: the tree has no encoder for those versions, and node decoding for them is covered only through the version guards (R10.3) and the shared layout rules of C09/C01.',
            'abstract execution of the constructor under linear constraints (Fourier-Motzkin) + guard/dominance rules', '§4 C10'),
    'C16': ('other',
            'Decides the structural clauses: every output-accumulating descent of the reader that tests finality also reads the final output; the inverse lookup reports success only under "node final and final output = remaining value", each step subtracts the followed transition\'s output and appends its byte, and is taken only from a node that was tested first (the root included); get_key delegates on a fresh buffer; the caller\'s buffer is append-only.',
            'Does not decide that choosing the last transition with output <= remaining value is correct for every monotone map: that depends on the builder\'s output-prefix arithmetic (argued in DESIGN.md, not checked).',
            'sibling-consistency rule + path-sensitive conditions on enumerated MIR paths', '§4 C16'),
})

CLAIMS.update({
    'C03': ('other',
            'Decides the structural clauses of range streaming over all MIR paths of the bound setters, the seek function and the DFS step: bound table and argument order of both raw builders, name-for-name delegation of the 16 wrapper methods, the truth table of the cut-off test over {<,=,>} x bound variant, the three seek endgames (frame contents included), lock-step of DFS stack and key buffer on every path of the seek and of one DFS step, emitted key/value composition, cut-off placement, and empty-key gating.',
            'Does not decide that the seek positions the DFS correctly for every key of every FST (that depends on runtime node contents); trusts the lexicographic order of byte slices and Iterator::position/unwrap_or semantics.',
            'path-sensitive symbolic reconstruction of MIR (loop-carried values havocked) + finite ordering-domain evaluation + balance counting', '§4 C03'),
    'C04': ('other',
            'Decides the structural clauses of automaton search: the automaton state is threaded synchronously with node and output in every frame pushed by the seek and by the DFS step; the byte fed to accept is the byte appended to the key buffer; a key is emitted only under "node final and is_match(post-accept state)"; can_match is asked only about the resumed frame and only prunes; will_always_match is never consulted; the empty key uses start(); the reported state is the post-accept state; seek keeps stack and key buffer in lock step on every exit.',
            'Does not decide "exactly the accepted keys" for all automata; the Automaton contract of the property is assumed. The bound handling shared with range streams is decided under C03.',
            'path-sensitive symbolic reconstruction of MIR with reaching definitions over access paths (pre/post-update values of loop-carried state)', '§4 C04'),
    'C05': ('other',
            'Decides the structural clauses of the four set-operation streams: slot linearity (every slot taken is refilled or parked exactly once on every path), emit predicates (intersection: counter = number of input streams incl. exhausted ones; symmetric difference: odd; union: always; counter init/step), reverse (key, value) heap order and the ==/<= conditional pops, one (index, value) entry per popped slot taken from that slot, difference reporting index 0, the op<->predicate table of is_disjoint/is_subset/is_superset, and wrapper delegation incl. zero outputs for sets.',
            'Does not decide equality with set theory for all tuples of streams as an observation; assumes input streams are strictly increasing and BinaryHeap is a max-heap.',
            'path-sensitive slot/def-use tracking over MIR + finite predicate domains + delegation rules', '§4 C05'),
})

CLAIMS.update({
    'C01': ('other',
            'Decides structural necessary conditions of the round trip: layout agreement as two one-sided checks against the declarative format table (every section the three node encoders emit - order, direction, width argument, presence guard, max-width computation, index table - and every byte offset, width and guard of the reader accessors, Node::new wiring and Node::transition), integer packing thresholds and endianness, delta addressing, key-count accounting, tiling of node addresses (with the byte counter counting exactly the accepted bytes), the single emission funnel, and each local step of the builder\'s output-prefix algebra.',
            'Does not decide the global invariant that the streamed (key, value) list equals the inserted one for all inputs (an inductive argument over the builder\'s stack and the reader\'s accumulation); the DFS/stream side is decided under C03. Trusts the transcription of the format table.',
            'emission-language reconstruction from MIR (dominance/control dependence), linear-form comparison of reader offsets with a declarative layout table, path-sensitive dataflow', '§4 C01'),
    'C02': ('other',
            'Decides the structural clauses of point lookup: both walkers miss at the first absent transition, follow the transition found for the probe byte, and hit only on a final node (get adds its final output); reader scan/index paths agree with how the writer stores inputs (reversed) and fills the 256-entry index (default 255, forward positions); common-input tables are mutually inverse permutations used as COMMON[b]+1 / INV[idx-1]; wrappers delegate; all reader offsets equal the format table.',
            'Does not decide "for every probe" as a value statement over all built FSTs; assumes the FST came from this crate\'s builder (C01/C09).',
            'path-sensitive MIR reconstruction of the walkers + linear-form comparison of reader offsets + constant tables read back from the compiled crate', '§4 C02'),
    'C08': ('other',
            'Decides: the 17x256 CRC tables compiled into the crate equal independently generated CRC-32C tables; masking is rotr15 + 0xA282EAD8 (bit provenance); slice-by-16 lane pairing, advance, guard, tail step and inversions; the checksum is read after both footer words and is the trailing word; verify() hashes exactly [0,len-4) from the empty state and requires equality with the stored word; the rolling checksum covers exactly the accepted bytes.',
            '"A single altered byte is never certified" additionally uses the burst-error theorem for a degree-32 CRC and the bijectivity of the mask (cited, not re-derived); a rewrite of the CRC loop outside the table-driven family is reported as undecided.',
            'compile-time constant comparison against an independent generator + bit-provenance domain + path-sensitive MIR reconstruction + must-precede rules', '§4 C08'),
    'C09': ('other',
            'Decides the writer half of the format against the declarative table: constants and common-input tables, state-byte tags/fields and sizes-byte nibbles (bit provenance), integer packing (thresholds, endianness), the emission language of every node encoder (order, direction, width, guard, max widths, index table, count byte for 256), form selection over all 48 consistent cases, delta addressing, header/footer words and order (the footer count being the accounted number of keys), and the checksum clause (tables, mask, coverage).',
            '"Decoding by the spec yields exactly the inserted map" inherits the undecided value-level part of C01; the format table itself is a transcription of the format comments at the pinned revision.',
            'emission-language reconstruction from MIR + finite-domain enumeration + bit-provenance + constant comparison', '§4 C09'),
    'C15': ('other',
            'Claimed as STRUCTURAL, not as proof: seed C15-m6 (checksum over offered bytes: output depends on the sink) was reported only through rules of other properties until R07.1 was shared; the premises listed here are all decided on each run, but completeness of the list is not claimed. ' + 'Each premise is discharged on every run: every construction entry point reaches emission only through the gates new/add/insert/finish, add and insert share one inserting routine, builders are created by a single constructor with literal cache geometry and type word; no nondeterministic std effect (keyed hashing, hash-container iteration, time, env, thread/process identity, atomics, pointer-to-integer casts) is reachable from any entry point and the library has no mutable/thread-local static; the cache bucket function is closed arithmetic over node fields and the cache holds no hasher state; rejected calls leave no trace (the check-before-mutate and duplicate-mode rules of C06 are re-decided here). The emitted bytes are therefore a function of the sequence of gate calls.',
            'Trusts the deny-list of nondeterministic std APIs; calls into user code are outside the property. That add(k) and insert(k, 0) emit the same bytes is argued in DESIGN.md (the output-pushing branch is the identity for zero outputs), not decided.',
            'call-graph reachability with gates + effect classification of resolved callees + constructor/argument provenance', '§4 C15'),
})

CLAIMS.update({
    'C12': ('other',
            'Decides the structural clauses of node sharing: in the node compiler every encoder call is preceded by a cache lookup of that very node that missed, a miss records the new address in the returned cell, a hit returns the cached address without emitting; a hit requires an occupied cell whose node equals the probe under the derived all-fields equality, and the bucket function reads exactly the compared fields; the cache has positive literal geometry, its table is sized only in the constructor and the cache is never replaced after construction, the bucket is hash mod the row count and a row is [stride*bucket, +stride); under the MRU moves (swap / rotate-to-front as a permutation domain) the refreshed cell is the cell handed back; the compiler is called once per frozen node and once for the root.',
            'Does not decide minimality, the trie bound or sharing ratios as quantities (they need the run-time contents of the cache and the classical minimal-acyclic-automaton argument); "no eviction" is a precondition of the property.',
            'path-sensitive MIR rules (must-precede, def-use of the returned cell) + permutation domain + constant/field provenance', '§4 C12'),
    'C13': ('other',
            'Decides who-may-grow: every call of a growing container method reachable from add/insert/finish whose receiver is rooted in builder state is on an allow-list of structurally bounded sites (clear-dominance re-checked where the bound depends on it); the container-typed fields of all builder-owned types equal the confirmed inventory; the never-forgetting registry is not linked.',
            'Measured heap is not decided; the bounds of the allow-listed sites (stack depth = key length, <= 256 transitions per node) are argued from the stack discipline, not measured. Fresh allocations that replace a buffer are churn and not flagged.',
            'call-graph effect analysis (growth methods) with receiver access paths + struct-field inventory', '§4 C13'),
    'C14': ('other',
            'Decides who-may-allocate / who-may-grow: no allocating or growing std callee is reachable from Fst::new / get / contains_key and their wrappers; every growth site reachable from the 22 Streamer::next implementations rooted in stream state is allow-listed with its bound (lock-step depth, clear-dominance, one slot per stream); no fresh allocation per step; container fields of the stream types equal the confirmed inventory.',
            'Measured heap is not decided; calls into the caller\'s AsRef / automaton / streams are opaque and assumed non-allocating.',
            'call-graph effect analysis (allocation and growth) with receiver access paths + struct-field inventory', '§4 C14'),
    'C18': ('other',
            'Decides hint soundness and the Boolean language clauses of the combinators: truth tables of is_match / can_match / will_always_match are reconstructed from MIR and checked by exhaustive enumeration over all semantic worlds and all sound component hints; StartsWith per state variant; leaf hints by closure/disjointness of the hint classes; componentwise start/accept; &T forwards each method to its namesake.',
            'Does not decide that Str accepts exactly its string or Subsequence exactly the supersequences as languages over all byte strings (only the advance/stay conditions and hint classes).',
            'Boolean truth-table reconstruction from short-circuit CFGs + exhaustive propositional entailment', '§4 C18'),
    'C19': ('other',
            'Decides structural necessary conditions in fst-bin: temp-file name templates are injective in (phase, generation, index) with index = a per-iteration counter (enumerate or +1 counter) and generation = per-round counter; the registered value mergers are +, max, min and the union fold (iterator or loop form, also in a private helper) is seeded with an element, never a constant; equal keys are resolved only through the merger in both phases, no pair de-duplication, no builder error swallowed; no mutable statics or unsafe Send/Sync, the collector drops its sender before draining.',
            'Does not decide equality of outputs over all schedules as an observation (thread interleavings are not explored); relies on associativity/commutativity of +, max, min and on crossbeam channel semantics.',
            'format-template decoding from compile-time constants + path-sensitive MIR rules + recognised-closure forms', '§4 C19'),
})

ADDENDA = {
    'C01': ' Also decided (DESIGN.md §7.6): state/sizes bit fields, decoder dispatch (address 0 <-> the implicit empty final node) and form selection; the writer\'s address-0 shortcut requires final, no transitions and zero final output; the set variant of the common-prefix routine compares by equality only; one-trans output guard.',
    'C02': ' Also: a one-trans hit is justified by comparing the input accessor with the probe; transition_addr dispatches per node form.',
    'C03': ' Also: the cut-off does not depend on the lengths of key and bound; a frame is abandoned only when exhausted or pruned and a transition is read only in range; the convenience collectors keep exactly one entry per streamed item.',
    'C04': ' Also: the provided hint methods of the Automaton trait are the trivially sound ones; the cut-off table of bounded searches; frames abandoned only when exhausted or pruned.',
    'C05': ' Also: the emit flag of difference is re-armed per candidate and cleared exactly on key equality; every stream given to an operation builder (add / push / extend / from_iter) reaches the list of input streams.',
    'C06': ' Also: the two ordering errors are constructed only by the ordering check (R06.7).',
    'C07': ' Also: the adapter does not forward to the inner writer a second time before accounting.',
    'C09': ' Also: files the CLI writes FSTs into are created empty (File::create / truncate / create_new).',
    'C10': ' Also: the format constants and the reader half of the layout table (offsets, scan window, bit fields of every node accessor) are decided under this property too.',
    'C11': ' Also: no BufWriter / LineWriter is put around the sink without being flushed or unwrapped (its Drop discards write errors); positive control in the fixture; fail fast: no builder state is touched between a fallible call and the test of its result.',
    'C12': ' Also: a miss inspects every cell of the row (row length = the shipped column literal) and overwrites the last cell; is_none tests equality with the fresh-cell marker; the address-0 shortcut guard; freeze-loop depth (len - istate >= 2 in exact linear form) and child linking.',
    'C13': ' Also: no builder front end collects or sorts its input.',
    'C14': ' Also: sized allocations on the reader / stream side request a constant or capped capacity; the entry lists are cleared per candidate after its slot is taken.',
    'C15': ' Also: rejected calls leave no trace (R06.x shared) and checksum / addresses depend on the accepted bytes only (R07.1 shared).',
    'C16': ' Also: the step follows take_while(output <= remaining).last(); success is tested before the first step and concerns one node.',
    'C18': ' Also decided as shape: Str and Subsequence start at position 0, advance by one exactly on byte equality with the pattern byte at the current position, Str matches at its length; provided trait hints.',
    'C19': ' Also: lossless batching of the work list (no chunks_exact / take / truncate), the row iterators over several input files end only when the file list is empty; one worker per iteration of 0..threads; conservation of items in every pipeline loop; the last partial batch is sent; wiring of merger / sort / finish / sends / final copy / --max --min (fst-bin has no tests of its own).',
}

ADDENDA2 = {
    'C01': ' Accepted widths 1..8 of the packers; BuilderNode::clone_from replaces the transition list; the output-free prefix scan runs only when no value was given.',
    'C05': ' What refill takes from a stream goes back on the heap; every key difference takes from its first stream becomes the candidate.',
    'C08': ' Also: verify() fails only with ChecksumMissing / ChecksumMismatch; the `fst verify` command propagates open and verify failures.',
    'C09': ' Every FST builder the CLI creates is finished on success; the finish protocol (R11.3) is decided here too.',
    'C11': ' No explicit panic in the adapter after the inner write.',
    'C13': ' The node cache is sized once (R12.3 shared); the CLI pipeline uses bounded channels.',
    'C14': ' Operation constructors do not drain their input streams.',
    'C16': ' false / None only for the right reason (no transition fits / get_key_into said false); a step taken by index has compared that output with the value.',
    'C19': ' Option names match fields; named fields are not swapped between same-typed parameters; every path of a first-phase batch sorts (or passes a strict in-order test).',
}

ADDENDA3 = {
    'C01': ' The DFS frame field that indexes transitions can hold 256; the convenience collectors decode keys losslessly (shared R03.7).',
    'C03': ' The string collectors decode keys losslessly (from_utf8 with the error propagated).',
    'C11': ' A Result parked in a variable that the next loop iteration assigns again unseen counts as dropped.',
    'C16': ' An answer given without running the descent is judged: "no keys", or "beyond the value of the last key" when that value comes from a right-most walk down to the node without transitions; the selecting predicate has no path that accepts a transition unchecked; the index form position(out > value) - 1 of the step.',
    'C18': ' No path of a combinator accept puts a component back into its start state.',
    'C19': ' A test over adjacent rows that decides whether a batch needs merging compares keys, not whole rows.',
}

ADDENDA4 = {
    'C01': ' The node compiler writes nothing but encoded nodes (no padding between node extents).',
    'C02': ' The transition count is not narrowed before the index entry is compared with it.',
    'C05': ' The agreement counter is initialised inside the loop that takes a new candidate key.',
    'C06': ' Every item a looping front end draws is offered to add / insert in the same iteration (R06.8).',
    'C07': ' The adapter returns no error of its own making (every error path forwarded to the sink first).',
    'C09': ' Node extents tile the body (R01.3 shared).',
    'C10': ' Only the verify command / verify wrappers call verify() (R10.7): opening a version-1/2 file never depends on a checksum.',
    'C11': ' A discarding Result method handed on as a function value (Result::ok) counts as swallowing.',
    'C12': ' The bucket function mixes with non-absorbing arithmetic (no saturating_*).',
    'C13': ' The CLI builds every FST straight into a file (no in-memory builder, R13.4).',
    'C14': ' CLI loops that drain a stream do not accumulate its items (R14.5); inside the library only the collector wrappers call the collectors (R14.6).',
    'C16': ' The reader half of the layout table (offsets of every node accessor) is decided under this property too.',
    'C19': ' The final partial batch is sent for every non-zero length (len-based tests evaluated); every path that inserts with a merger configured inserts the fold.',
}

ADDENDA5 = {
    'C01': ' Map / set level stream adapters ask the wrapped stream once per call and never loop (R01.7); the common-input tables (R09.1) are decided here too.',
    'C02': ' Integer packing (R09.4) is decided here too.',
    'C04': ' The seek endgames, lock step and empty-key gating of range streams (R03.4-R03.6) are decided on the with-state paths too.',
    'C05': ' The slot hands out the key it was given for every key length (R05.9); the 16 range-wrapper setters delegate name for name (R03.2 shared).',
    'C06': ' Ordering errors carry the whole key.',
    'C09': ' No command produces its FST by copying a file (R09.10).',
    'C12': ' No registry routine refuses a node while the row has cells.',
    'C13': ' Builder buffers are not sized by what has been built so far (R13.5); the batching loop compares against a fixed bound (R13.6).',
    'C15': ' The cache geometry arguments are single literals (not a choice between literals); the checksum that ends the file is read in one routine only (R15.5).',
    'C19': ' The concatenating readers hand out every row they draw and the CSV readers are not configured to trim / skip / re-split rows.',
}

ADDENDA6 = {
    'C01': ' The constructor opens every well-formed file: its version / length gates (R10.1, R10.4) are decided here too.',
    'C09': ' Commands that may write their FST to stdout print nothing else there (R09.11).',
    'C10': ' The CLI hands files to Fst::new without a length gate of its own.',
    'C13': ' The --sorted CLI builds stream their input (R13.7).',
    'C14': ' The CLI memory-maps FST files instead of reading them into the heap (R14.7).',
    'C15': ' Only the constructor and the node compiler assign last_addr (R01.3 shared).',
    'C18': ' Str never claims will_always_match.',
}

NOT_APPLICABLE = {
    'C17': 'Acceptance is a property of a DFA constructed at run time from the query; no clause has a structural counterpart that a sound static rule within reach could decide (DESIGN.md §6).',
}

PENDING = {}


def main():
    props = [json.loads(l)['id'] for l in open(os.path.join(HERE, 'properties.jsonl'))]
    checks = []
    for pid in props:
        if pid not in CLAIMS:
            continue
        cat, text, note, tech, ref = CLAIMS[pid]
        text = text + ADDENDA.get(pid, '') + ADDENDA2.get(pid, '') + ADDENDA3.get(pid, '') + ADDENDA4.get(pid, '') + ADDENDA5.get(pid, '') + ADDENDA6.get(pid, '')
        checks.append({
            'property_id': pid,
            'quick_cmd': './check %s --tier quick' % pid,
            'thorough_cmd': './check %s --tier thorough' % pid,
            'evidence_file': 'evidence/%s.json' % pid,
            'replay_cmd_template': './check %s --explain {path}' % pid,
            'engine': 'mirdump+rules',
            'level_claimed': {'category': cat, 'text': text, 'design_ref': ref},
            'level_note': note,
            'technique': tech,
        })
    na = []
    for pid in props:
        if pid in CLAIMS:
            continue
        reason = NOT_APPLICABLE.get(pid) or PENDING.get(pid) or 'No sound static rule has been built for this property yet; it is not claimed (see DESIGN.md).'
        na.append({'property_id': pid, 'reason': reason})
    m = {
        'version': 1,
        'setup_cmd': 'cd engine/mirdump && CARGO_NET_OFFLINE=true cargo build --release --offline && cd ../.. && python3 engine/py/dump.py /repo ws',
        'hooks': {
            'guard': 'burntsushi_fst_verif',
            'enable': 'no source hooks are needed: the checks compile /repo as it is (cargo +nightly check with engine/mirdump as RUSTC_WORKSPACE_WRAPPER)',
            'baseline_off_cmd': 'cd /repo && cargo test --workspace --no-fail-fast --offline',
            'source_commits': [],
            'add_only': True,
        },
        'engines': [
            {'name': 'mirdump', 'path': 'engine/mirdump', 'serves_properties': sorted(CLAIMS), 'kind_free_text': 'rustc_private driver dumping HIR/MIR/const facts of /repo as JSON'},
            {'name': 'rules', 'path': 'engine/py', 'serves_properties': sorted(CLAIMS), 'kind_free_text': 'static analyses over the facts: call graph, dominance, reaching definitions over access paths, path-sensitive symbolic reconstruction, finite abstract domains, linear arithmetic'},
        ],
        'checks': checks,
        'not_applicable': na,
        'notes': 'Static analysis only. Nothing of /repo is executed by any registered command; cargo check runs the build script as part of compiling. Genuine defects found and repaired are listed in known_findings.json (fixed entries).',
    }
    json.dump(m, open(os.path.join(HERE, 'MANIFEST.json'), 'w'), indent=1)
    print('claimed:', [c['property_id'] for c in checks], 'n/a:', [x['property_id'] for x in na])


if __name__ == '__main__':
    main()
